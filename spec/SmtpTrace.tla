----------------------------- MODULE SmtpTrace -----------------------------
(***************************************************************************)
(* Trace specification for `vh smtp': validates recorded SMTP dialogues    *)
(* with the real server against the Smtp contract.  Each "cmd" event names *)
(* the abstract command that was sent (field c) together with the facts    *)
(* about the concrete line the driver chose (is the syntax valid, which    *)
(* domain, which mailbox the address names, the hook's scripted answer).   *)
(* The decisions are computed here, by Policy, from the configuration of   *)
(* the "reset" event; the reply class and the projected state of the whole *)
(* store after every line must be those of the contract.                   *)
(***************************************************************************)
EXTENDS Smtp, Policy, Json, TLC, TLCExt, IOUtils, SequencesExt

TraceLog == ndJsonDeserialize(IOEnv.VERIF_TRACE)
AllowedKeys == {r.key : r \in ToSet(ndJsonDeserialize(IOEnv.VERIF_ALLOWED_FILE))}

VARIABLES l, cfg
tvars == <<st, from, rcpts, boxes, maxRcpt, reply, tls, l, cfg>>

Dev(key) == key \in AllowedKeys /\ PrintT(<<"DEVIATION", key, l>>)
FailSet == IF "failMailbox" \in DOMAIN cfg /\ cfg.failMailbox # "" THEN {cfg.failMailbox} ELSE {}
Ev == TraceLog[l]
Is(a) == l <= Len(TraceLog) /\ Ev.a = a /\ l' = l + 1
Cmd(c) == Is("cmd") /\ Ev.c = c
Mark == TLCSet(1, l + 1)
Has(f) == f \in DOMAIN Ev

(* projection of the real store: per non-empty mailbox the delivered       *)
(* messages; size must be the length of the source, which must begin with  *)
(* the server's trace headers                                              *)
Strip(m) == [from |-> m.from, to |-> m.to, subject |-> m.subject, bodyhash |-> m.bodyhash]
Snap(b) == {[mb |-> m, msgs |-> b[m]] : m \in {x \in Mailbox : b[x] # <<>>}}
SnapOK(b) ==
    /\ Ev.serr = <<>>
    /\ Len(Ev.s) = Cardinality(Snap(b))
    /\ {[mb |-> x.mb, msgs |-> [i \in DOMAIN x.msgs |-> Strip(x.msgs[i])]] : x \in ToSet(Ev.s)} = Snap(b)
    /\ \A x \in ToSet(Ev.s) : \A i \in DOMAIN x.msgs : x.msgs[i].size = x.msgs[i].srclen /\ x.msgs[i].hdrs

(* the reply recorded for this line is the contract's: exactly one,        *)
(* well-formed, of the right class (and code/text for a hook's deny)       *)
ReplyOK ==
    /\ Ev.wf
    /\ Ev.cls = reply'.cls
    /\ ("code" \in DOMAIN reply') => (Ev.code = reply'.code /\ Ev.text = reply'.text)
(* (a pipelining client has written the message together with DATA: when the 354 is read the store may already *)
(* hold it - the driver marks that step "ahead" and the store is compared at the next step)                    *)
Done == ReplyOK /\ (Has("ahead") \/ SnapOK(boxes')) /\ cfg' = cfg /\ Mark

Pol == [defaultAccept |-> cfg.policy.defaultAccept, accept |-> ToSet(cfg.policy.accept),
        reject |-> ToSet(cfg.policy.reject), defaultStore |-> cfg.policy.defaultStore,
        store |-> ToSet(cfg.policy.store), discard |-> ToSet(cfg.policy.discard),
        rejectOrigin |-> ToSet(cfg.policy.rejectOrigin)]
HookAns == IF Has("hook") THEN Ev.hook ELSE [action |-> "none"]
SizeOK  == ~Has("declared") \/ Ev.declared <= cfg.maxBytes

TraceInit == /\ l = 1 /\ cfg = [none |-> TRUE]
             /\ SInit(0)

TrReset == /\ Is("reset")
           /\ cfg' = Ev.cfg
           /\ st' = "QUIT" /\ from' = NoSender /\ rcpts' = <<>>
           /\ boxes' = [m \in Mailbox |-> <<>>]
           /\ maxRcpt' = Ev.cfg.maxRcpt
           /\ tls' = IF "tls" \in DOMAIN Ev.cfg /\ Ev.cfg.tls THEN "avail" ELSE "off"
           /\ reply' = Ok
           /\ SnapOK(boxes') /\ Mark

TrConnect == /\ Is("connect") /\ Connect /\ Done

(* an accepted EHLO that lists the server's extensions (a multi-line reply; a later EHLO is answered *)
(* with a plain "session reset") lists STARTTLS exactly while it can be used; no reply ever names it  *)
(* when it cannot                                                                                    *)
TrHello == /\ Cmd("helo") /\ Hello(Ev.verb, Ev.arg)
           /\ (Has("adv") /\ Ev.adv) => Advertised
           /\ (Has("adv") /\ Ev.verb = "EHLO" /\ reply'.cls = "ok" /\ Ev.lines > 1) => (Ev.adv = Advertised)
           /\ Done
(* STARTTLS: when the contract accepts it the driver negotiated TLS (Ev.upgraded) and the rest of the *)
(* dialogue runs encrypted                                                                           *)
TrStartTLS == /\ Cmd("starttls") /\ StartTLS
              /\ (reply'.cls = "ok") => (Has("upgraded") /\ Ev.upgraded)
              /\ Done
TrMail ==
    /\ Cmd("mail")
    /\ Mail(Ev.sender,
            [syntax |-> Ev.syntax, size |-> Ev.sizeparse /\ SizeOK, addr |-> Ev.addrok, hook |-> HookAns,
             origin |-> OriginOk(Pol, Ev.domchars)])
    /\ Done
TrRcpt ==
    /\ Cmd("rcpt")
    /\ Rcpt([addr |-> Ev.addr, mbox |-> Ev.mbox, store |-> ShouldStore(Pol, Ev.dom)],
            [valid |-> Ev.valid, hook |-> HookAns, accept |-> ShouldAccept(Pol, Ev.dom)])
    /\ Done
TrData == /\ Cmd("data") /\ Data(Ev.arg) /\ Done
(* the message as the store must show it: header From/To when present and  *)
(* parseable, else the envelope sender / the accepted recipients           *)
ExpectedMsg ==
    [from |-> IF Ev.fromhdr = "" THEN from.addr ELSE Ev.fromhdr,
     to |-> IF Ev.tohdr THEN Ev.to ELSE [i \in DOMAIN rcpts |-> rcpts[i].addr],
     subject |-> Ev.subject, bodyhash |-> Ev.bodyhash]
BodyD == [parse |-> Ev.parse, fits |-> Ev.size <= cfg.maxBytes, fails |-> FailSet,
          hook |-> IF Has("hook") /\ Ev.hook.action \in {"replace", "replace-keep"}
                   THEN [action |-> Ev.hook.action,
                         mailboxes |-> IF Ev.hook.action = "replace" THEN Ev.hook.mailboxes ELSE <<>>,
                         msg |-> [from |-> Ev.hook.from, to |-> Ev.hook.to, subject |-> Ev.hook.subject,
                                  bodyhash |-> Ev.bodyhash]]
                   ELSE [action |-> "none"]]
(* known departure (fault injection): when the store refuses the message for one *)
(* mailbox in the middle of the fan-out the transaction is answered 451, but the *)
(* copies for the mailboxes before it stay (the contract: a refused transaction  *)
(* adds nothing)                                                                 *)
RECURSIVE Before(_, _)
Before(ts, bad) == IF ts = <<>> \/ Head(ts) \in bad THEN <<>> ELSE <<Head(ts)>> \o Before(Tail(ts), bad)
DevPartialFanout ==
    /\ st = "DATA" /\ Ev.parse /\ Ev.size <= cfg.maxBytes /\ StoreFails(BodyD)
    /\ Before(Targets(BodyD), FailSet) # <<>>
    /\ Dev("C01.partial-fanout-on-store-failure")
    /\ st' = "READY" /\ ClearEnvelope
    /\ boxes' = DeliverTo(boxes, Before(Targets(BodyD), FailSet),
                          IF BodyD.hook.action = "none" THEN ExpectedMsg ELSE BodyD.hook.msg)
    /\ Answer(Fail)
TrBody ==
    /\ Cmd("body")
    /\ Body(ExpectedMsg, BodyD) \/ DevPartialFanout
    /\ Done
TrRset == /\ Cmd("rset") /\ Rset /\ Done
TrHarmless == /\ Is("cmd") /\ Ev.c \in {"noop", "vrfy"} /\ Harmless /\ Done
TrRefused == /\ Is("cmd") /\ Ev.c \in {"unimpl", "unknown", "short", "empty", "garbage", "long",
                                      "authother", "authplainnoarg", "authbare"}
             /\ Refused /\ Done
TrAuthPlain == /\ Cmd("authplain") /\ Auth("plain") /\ Done
TrAuthLogin == /\ Cmd("authlogin") /\ Auth("login") /\ Done
TrCred == /\ Is("cmd") /\ Ev.c \in {"cred", "credquit", "credempty"} /\ Credential /\ Done
TrQuit == /\ Cmd("quit") /\ Quit /\ Done

(* the client hangs up at the end of the dialogue: the server says nothing  *)
(* more, its session ends, and the store stays as it is                     *)
TrEnd == /\ Is("end") /\ Ev.extra = 0 /\ Ev.returned
         /\ Cut /\ SnapOK(boxes) /\ cfg' = cfg /\ Mark

(* the client disconnects in the middle of the dialogue (C03): everything   *)
(* acknowledged stays; the message whose data had been transmitted           *)
(* completely (Ev.complete, only possible for a body step) may or may not    *)
(* have been delivered; nothing else changes                                 *)
BodyDec == [parse |-> Ev.parse, fits |-> Ev.size <= cfg.maxBytes, hook |-> [action |-> "none"], fails |-> FailSet]
TrCut == /\ Is("cut") /\ Ev.returned
         /\ \/ Cut
            \/ /\ Ev.c = "body" /\ Ev.complete /\ st = "DATA"
               /\ Body(ExpectedMsg, BodyDec)
         /\ SnapOK(boxes') /\ cfg' = cfg /\ Mark

(* the driver did not send a body because the server had not answered 354 *)
TrSkipped == /\ Is("skipped") /\ st # "DATA"
             /\ UNCHANGED smtpvars /\ SnapOK(boxes) /\ cfg' = cfg /\ Mark

TraceNext == \/ TrStartTLS \/ TrSkipped \/ TrCut \/ TrReset \/ TrConnect \/ TrHello \/ TrMail \/ TrRcpt \/ TrData \/ TrBody \/ TrRset
             \/ TrHarmless \/ TrRefused \/ TrAuthPlain \/ TrAuthLogin \/ TrCred \/ TrQuit \/ TrEnd

TraceSpec == TraceInit /\ [][TraceNext]_tvars

TraceAccepted ==
    IF TLCGet(1) = Len(TraceLog) + 1 THEN TRUE
    ELSE /\ PrintT(<<"REJECTED_AT", TLCGet(1)>>)
         /\ FALSE
ASSUME TLCSet(1, 1)
=============================================================================
