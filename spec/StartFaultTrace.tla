--------------------------- MODULE StartFaultTrace ---------------------------
(* C19, a listener that cannot bind at start-up: the failure is reported (the services never become ready), *)
(* and the shutdown that main then runs - cancel, drain SMTP, drain POP3, join the retention scanner -      *)
(* completes: every one of those waits ends.  One "startfault" event per run of `vh startfault'.            *)
EXTENDS Naturals, Sequences, Json, TLC, IOUtils
TraceLog == ndJsonDeserialize(IOEnv.VERIF_TRACE)
VARIABLE l
Ev == TraceLog[l]
TraceInit == l = 1
TrStartFault == /\ l <= Len(TraceLog) /\ Ev.a = "startfault" /\ l' = l + 1
                /\ Ev.notified /\ ~Ev.ready
                /\ Ev.smtp_drain /\ Ev.pop3_drain /\ Ev.join
                /\ TLCSet(1, l + 1)
TraceSpec == TraceInit /\ [][TrStartFault]_l
TraceAccepted ==
    IF TLCGet(1) = Len(TraceLog) + 1 THEN TRUE
    ELSE /\ PrintT(<<"REJECTED_AT", TLCGet(1)>>)
         /\ FALSE
ASSUME TLCSet(1, 1)
=============================================================================
