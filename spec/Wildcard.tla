------------------------------ MODULE Wildcard ------------------------------
(* Textbook semantics of shell-style wildcard patterns over sequences of     *)
(* characters: "*" matches any (possibly empty) run, "?" exactly one         *)
(* character, everything else itself.  Used by Policy (reject-origin         *)
(* patterns, C05) and compared with stringutil.MatchWithWildcards.           *)
EXTENDS Naturals, Sequences

RECURSIVE Match(_, _)
Match(p, s) ==
    IF p = <<>> THEN s = <<>>
    ELSE IF Head(p) = "*"
         THEN \/ Match(Tail(p), s)                         \* star matches nothing
              \/ (s # <<>> /\ Match(p, Tail(s)))           \* star eats one more character
         ELSE /\ s # <<>>
              /\ (Head(p) = "?" \/ Head(p) = Head(s))
              /\ Match(Tail(p), Tail(s))
=============================================================================
