--------------------------- MODULE WildcardTrace ---------------------------
(* Validates recorded answers of stringutil.MatchWithWildcards against the  *)
(* textbook semantics of Wildcard.tla (C05: reject-origin patterns).        *)
EXTENDS Wildcard, Json, TLC, IOUtils

TraceLog == ndJsonDeserialize(IOEnv.VERIF_TRACE)
VARIABLE l
Ev == TraceLog[l]
Mark == TLCSet(1, l + 1)
TraceInit == l = 1
TrReset == l <= Len(TraceLog) /\ Ev.a = "reset" /\ l' = l + 1 /\ Mark
TrMatch == /\ l <= Len(TraceLog) /\ Ev.a = "match" /\ l' = l + 1
           /\ Ev.r = Match(Ev.p, Ev.s)
           /\ Mark
TraceSpec == TraceInit /\ [][TrReset \/ TrMatch]_l
TraceAccepted ==
    IF TLCGet(1) = Len(TraceLog) + 1 THEN TRUE
    ELSE /\ PrintT(<<"REJECTED_AT", TLCGet(1)>>)
         /\ FALSE
ASSUME TLCSet(1, 1)
=============================================================================
