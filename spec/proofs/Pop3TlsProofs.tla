--------------------------- MODULE Pop3TlsProofs ---------------------------
(* TLAPS: NeedsConfig is an invariant of the Pop3Tls contract for ANY set of connections *)
(* (TLC checks it for three, Apalache proves the typed copy inductive for three).        *)
EXTENDS Naturals, TLAPS

CONSTANTS Conn, Configured
VARIABLES link, phase
tvars == <<link, phase>>

TInit == link = [c \in Conn |-> "none"] /\ phase = [c \in Conn |-> "auth"]
Open(c)  == link[c] = "none" /\ link' = [link EXCEPT ![c] = "clear"] /\ phase' = [phase EXCEPT ![c] = "auth"]
Close(c) == link[c] # "none" /\ link' = [link EXCEPT ![c] = "none"] /\ phase' = [phase EXCEPT ![c] = "auth"]
Login(c) == link[c] # "none" /\ phase[c] = "auth" /\ phase' = [phase EXCEPT ![c] = "trans"] /\ UNCHANGED link
Usable(c)  == Configured /\ link[c] = "clear" /\ phase[c] = "auth"
Stls(c, accepted) ==
    /\ link[c] # "none"
    /\ accepted = Usable(c)
    /\ link' = IF accepted THEN [link EXCEPT ![c] = "tls"] ELSE link
    /\ UNCHANGED phase
TNext == \E c \in Conn : \/ Open(c) \/ Close(c) \/ Login(c)
                         \/ \E b \in BOOLEAN : Stls(c, b)
TSpec == TInit /\ [][TNext]_tvars

TypeOK == /\ link \in [Conn -> {"none", "clear", "tls"}]
          /\ phase \in [Conn -> {"auth", "trans"}]
NeedsConfig == \A c \in Conn : link[c] = "tls" => Configured
Inv == TypeOK /\ NeedsConfig

THEOREM Safety == TSpec => []Inv
<1>1. TInit => Inv
  BY DEF TInit, Inv, TypeOK, NeedsConfig
<1>2. Inv /\ [TNext]_tvars => Inv'
  <2> SUFFICES ASSUME Inv, [TNext]_tvars PROVE Inv'
    OBVIOUS
  <2>1. CASE UNCHANGED tvars
    BY <2>1 DEF Inv, TypeOK, NeedsConfig, tvars
  <2>2. ASSUME NEW c \in Conn, Open(c) PROVE Inv'
    BY <2>2 DEF Inv, TypeOK, NeedsConfig, Open
  <2>3. ASSUME NEW c \in Conn, Close(c) PROVE Inv'
    BY <2>3 DEF Inv, TypeOK, NeedsConfig, Close
  <2>4. ASSUME NEW c \in Conn, Login(c) PROVE Inv'
    BY <2>4 DEF Inv, TypeOK, NeedsConfig, Login
  <2>5. ASSUME NEW c \in Conn, NEW b \in BOOLEAN, Stls(c, b) PROVE Inv'
    BY <2>5 DEF Inv, TypeOK, NeedsConfig, Stls, Usable
  <2>6. QED
    BY <2>1, <2>2, <2>3, <2>4, <2>5 DEF TNext
<1>3. QED
  BY <1>1, <1>2, PTL DEF TSpec
=============================================================================
