#!/usr/bin/env python3
"""Regenerates MANIFEST.json from checks/registry.py and tools/not_applicable.json."""
import json
import os
import sys

ROOT = os.path.dirname(os.path.dirname(os.path.abspath(__file__)))
sys.path.insert(0, ROOT)
from checks.registry import load  # noqa: E402

reg = load()
props = [json.loads(l)["id"] for l in open(os.path.join(ROOT, "properties.jsonl"))]
na = json.load(open(os.path.join(ROOT, "tools", "not_applicable.json")))
hooks = json.load(open(os.path.join(ROOT, "tools", "hooks.json")))
enabled = set(json.load(open(os.path.join(ROOT, "tools", "enabled.json"))))
reg = {k: v for k, v in reg.items() if k in enabled}
checks = []
for pid in props:
    if pid not in reg:
        continue
    r = reg[pid]
    checks.append({
        "property_id": pid,
        "quick_cmd": "bin/check %s --tier quick" % pid,
        "thorough_cmd": "bin/check %s --tier thorough" % pid,
        "evidence_file": "evidence/%s.json" % pid,
        "replay_cmd_template": "bin/check %s --replay {path}" % pid,
        "engine": r["engine"],
        "level_claimed": {"category": r["level"], "text": r["text"], "design_ref": r["design_ref"]},
        "level_note": r["note"],
        "technique": r["technique"],
    })
engines = {}
for pid, r in reg.items():
    engines.setdefault(r["engine"], []).append(pid)
m = {
    "version": 1,
    "setup_cmd": "bin/check --setup",
    "hooks": hooks,
    "engines": [{"name": e, "path": "bin/check", "serves_properties": sorted(p), "kind_free_text":
                 "TLA+ specification checked by TLC + Go conformance harness (behaviour replay and trace validation)"} for e, p in sorted(engines.items())],
    "checks": checks,
    "notes": "All checks: exit 0 held / 1 violation (VIOLATION line, only from real-code traces) / 2 inconclusive. See DESIGN.md.",
    "not_applicable": [{"property_id": p, "reason": na.get(p, "check not built yet (work in progress)")} for p in props if p not in reg],
}
json.dump(m, open(os.path.join(ROOT, "MANIFEST.json"), "w"), indent=1)
print("checks:", [c["property_id"] for c in checks], "not_applicable:", [x["property_id"] for x in m["not_applicable"]])
