#!/usr/bin/env python3
"""tools/mkspecindex.py: writes docs/SPECS.md, an index of the specification suite (one row per module of spec/)."""
import glob, os, re
ROOT = os.path.dirname(os.path.dirname(os.path.abspath(__file__)))
spec = os.path.join(ROOT, "spec")
checks = {f: open(f).read() for f in glob.glob(os.path.join(ROOT, "checks", "*.py"))}
rows = []
for f in sorted(glob.glob(spec + "/*.tla") + glob.glob(spec + "/proofs/*.tla")):
    name = os.path.basename(f)[:-4]
    src = open(f).read()
    m2 = re.search(r"^\(\*\s*(.+?)\s*\*\)", src, re.M)
    head = (m2.group(1) if m2 else "").strip()
    if head.startswith("*"):
        lines = [l.strip("(*) ").strip() for l in src.splitlines()[1:8] if l.startswith("(*") and set(l.strip()) - set("(*)")]
        head = " ".join(lines[:3])
    used = sorted({os.path.basename(c)[:-3] for c, t in checks.items() if re.search(r"[\"']%s[\"']" % re.escape(name), t)})
    ext = re.search(r"^EXTENDS (.*)$", src, re.M)
    kind = ("trace specification" if name.endswith("Trace") else "generator / bounded model" if name.startswith("Gen") or name.startswith("MC")
            else "implementation-shaped model" if name.endswith("Impl") or name == "FileStoreProg" else "proof" if "proofs" in f else "contract")
    rows.append((name, kind, src.count("\n"), head[:230], ", ".join(used), (ext.group(1) if ext else "")[:80]))
out = ["# The specification suite (index)", "",
       "Generated from `spec/` (`tools/mkspecindex.py`); one row per module.  \"used by\" names the check modules (`checks/*.py`) that load it;",
       "which property a check module serves is in `checks/registry.py`.  Kinds: *contract* (kind A: what the property states, no implementation",
       "detail), *implementation-shaped model* (kind B: the steps the code takes, with the known ways it has been wrong as named deviation constants,",
       "checked to satisfy / refine its contract), *generator / bounded model* (instantiates a contract with small constants for exhaustive checking and",
       "prints behaviours for the drivers), *trace specification* (binds recorded ndjson traces of the real code to a contract).", "",
       "%d modules, %d lines." % (len(rows), sum(r[2] for r in rows)), "",
       "| module | kind | lines | what it is | used by | extends |", "|---|---|---|---|---|---|"]
for r in rows:
    out.append("| `%s` | %s | %d | %s | %s | %s |" % (r[0], r[1], r[2], r[3].replace("|", "/"), r[4] or "-", r[5].replace("|", "/")))
open(os.path.join(ROOT, "docs", "SPECS.md"), "w").write("\n".join(out) + "\n")
print(len(rows), "modules")
