#!/bin/bash
# tools/run_all.sh <tier> <seed> [ids...]: runs the enabled checks one after the other and prints one summary line each
T=${1:-quick}; S=${2:-1}; shift 2
cd "$(dirname "$0")/.."
IDS=${@:-$(python3 -c "import json;print(' '.join(json.load(open('tools/enabled.json'))))")}
for c in $IDS; do
  t0=$(date +%s)
  VERIF_SEED=$S timeout 3000 bin/check $c --tier $T > /tmp/runall-$T-$S-$c.out 2> /tmp/runall-$T-$S-$c.err; rc=$?
  echo "$c tier=$T seed=$S rc=$rc wall=$(( $(date +%s) - t0 ))s violations=$(grep -c '^VIOLATION' /tmp/runall-$T-$S-$c.out) known=$(grep -c '^KNOWN-FINDING' /tmp/runall-$T-$S-$c.out)"
done
