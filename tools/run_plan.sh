#!/bin/bash
# tools/run_plan.sh: thorough tier for the listed checks, then the quick tier with seeds 2 and 3 for all
cd "$(dirname "$0")/.."
tools/run_all.sh thorough 1 "$@"
tools/run_all.sh quick 2
tools/run_all.sh quick 3
