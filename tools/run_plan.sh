#!/bin/bash
# tools/run_plan.sh [ids...]: quick tier with seeds 1-3 for all checks, then the thorough tier for the listed checks (default: all)
cd "$(dirname "$0")/.."
tools/run_all.sh quick 1
tools/run_all.sh quick 2
tools/run_all.sh quick 3
tools/run_all.sh thorough 1 "$@"
